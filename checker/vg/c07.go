package vg

import (
	"go/ast"
	"go/constant"
	"go/token"
	"go/types"
	"sort"
	"strings"

	"golang.org/x/tools/go/ssa"
)

func init() {
	register(&PropertySpec{
		ID: "C07",
		Explanation: "The round trip (URL generation o URL parsing = identity over all messages) is a value property and is NOT decided. Decided necessary clauses: " +
			"(C07.1) every failure of the parameter setter is a connect error with the constant code invalid_argument; " +
			"(C07.2) the value->string and string->value tables switch over protoreflect.Kind with the same case sets, together covering every declared Kind, and the well-known-type name switches of both directions stay within the scalar-JSON well-known-type list; " +
			"(C07.3) the REST request preparer decodes the body first, then applies path variables, then query parameters, each phase returning its error at once; " +
			"(C07.4) every request input source the preparer consumes (path variables, query string, body selector, HttpBody) is consulted by the needs-preparation predicate, so no source is silently ignored by skipping preparation. " +
			"Not decided: escaping of values, repeated fields, body/response_body selection semantics, numeric formats, segment-count arithmetic when generating paths.",
		Run: runC07,
	})
}

// kindSwitchCases extracts the constant case values of the first switch in fn
// whose tag is (an identifier bound to) a call of method Kind().
func kindSwitchCases(p *Prog, fn *ssa.Function) (map[string]bool, bool, token.Pos) {
	fd := p.FuncDecl(fn)
	if fd == nil {
		return nil, false, token.NoPos
	}
	info := p.Info(fn)
	var found *ast.SwitchStmt
	ast.Inspect(fd.Body, func(n ast.Node) bool {
		sw, ok := n.(*ast.SwitchStmt)
		if !ok || found != nil {
			return true
		}
		isKind := func(e ast.Expr) bool {
			call, ok := e.(*ast.CallExpr)
			if !ok {
				return false
			}
			sel, ok := call.Fun.(*ast.SelectorExpr)
			return ok && sel.Sel.Name == "Kind"
		}
		if sw.Tag != nil && isKind(sw.Tag) {
			found = sw
		}
		if as, ok := sw.Init.(*ast.AssignStmt); ok && len(as.Rhs) == 1 && isKind(as.Rhs[0]) {
			found = sw
		}
		return true
	})
	if found == nil {
		return nil, false, fd.Pos()
	}
	out := map[string]bool{}
	hasDefault := false
	for _, st := range found.Body.List {
		cc := st.(*ast.CaseClause)
		if cc.List == nil {
			hasDefault = true
		}
		for _, e := range cc.List {
			if tv, ok := info.Types[e]; ok && tv.Value != nil {
				out[tv.Value.ExactString()] = true
			}
		}
	}
	return out, hasDefault, found.Pos()
}

// stringSwitchCases collects the string constants of all case clauses in fn.
func stringSwitchCases(p *Prog, fn *ssa.Function) map[string]bool {
	out := map[string]bool{}
	fd := p.FuncDecl(fn)
	if fd == nil {
		return out
	}
	info := p.Info(fn)
	ast.Inspect(fd.Body, func(n ast.Node) bool {
		if cc, ok := n.(*ast.CaseClause); ok {
			for _, e := range cc.List {
				if tv, ok := info.Types[e]; ok && tv.Value != nil && tv.Value.Kind() == constant.String {
					out[constant.StringVal(tv.Value)] = true
				}
			}
		}
		return true
	})
	return out
}

// runC07PathBoundNotQuery: C07.9 (defect D64; the clause of C06 'the variable values handed to the
// method are exactly that template's captures').  The property fixes the binding order body, path
// variables, query parameters (C07.3) - so a query parameter that names a field the path
// template binds would overwrite the capture: `GET /v1/alice/items?a=mallory` runs the method for
// "mallory" on the route that was matched (and possibly authorised) for "alice".  google.api.http:
// fields bound by the path are not query parameters.  Hence every application of a query value is
// dominated by the failing outcome of a test that is handed the route's variables and the resolved
// field path, and whose succeeding outcome leads only to error returns.
func runC07PathBoundNotQuery(c *Ctx) {
	p := c.P
	c.Rule("C07.9", "a query parameter that names a field bound by the path template is rejected (it cannot override the capture)", 1)
	setParam := p.MustFunc("setParameter")
	rcp := p.MustNamed("restClientProtocol")
	prep := p.MethodOf(rcp, "prepareUnmarshalledRequest")
	if prep == nil {
		fatalf("anchor=restClientProtocol.prepareUnmarshalledRequest not found")
	}
	varsF := p.MustField("routeTarget", "vars")
	restVarsFld := p.MustField("operation", "restVars")
	n := 0
	for _, fn := range p.Family(prep) {
		ei := errorResultIndex(fn.Signature)
		for _, call := range Calls(fn) {
			if call.Common().StaticCallee() != setParam || len(call.Common().Args) < 3 {
				continue
			}
			fromQuery := false
			for _, l := range Origins(call.Common().Args[2]) {
				if l.Kind == "load" && strings.HasSuffix(l.Path, "[]") && !strings.Contains(l.Path, N(restVarsFld)) {
					fromQuery = true
				}
			}
			if !fromQuery {
				continue
			}
			n++
			fields := call.Common().Args[1]
			ok := false
			for _, f := range FactsAt(call.Block()) {
				tc, isCall := f.Cond.(*ssa.Call)
				if !isCall || f.Truth || f.If == nil {
					continue
				}
				sc := tc.Call.StaticCallee()
				if sc == nil || !p.inModule(sc) {
					continue
				}
				hasVars, hasFields := false, false
				for _, a := range tc.Call.Args {
					for _, l := range Origins(a) {
						if l.Kind == "load" && (l.Field == varsF || l.Field == restVarsFld) {
							hasVars = true
						}
					}
					if a == fields || strip(a) == strip(fields) {
						hasFields = true
					}
				}
				if !hasVars || !hasFields {
					continue
				}
				if good, _ := succReturnsOnlyErrors(fn, f.If.Block().Succs[0], ei); good {
					ok = true
				}
			}
			c.Check(ok, "C07.9", FuncName(fn), "path-bound-field-not-a-query-parameter", call.Pos(),
				"the query value is applied only after a test of the resolved field path against the route's path variables has failed; its succeeding outcome is an error",
				"a query value is applied to the request message without first excluding the fields that the path template binds: since query parameters are applied after the path captures, `?a=other` replaces the value captured for {a} and the method runs for another resource than the route that was matched")
		}
	}
	if n == 0 {
		c.Bad("C07.9", FuncName(prep), "path-bound-field-not-a-query-parameter", prep.Pos(), "no application of query values through setParameter found: shape changed")
	}
}

func runC07(c *Ctx) {
	// clause shared with C15: request-time code never writes into the route's shared template
	defer c.ImportRules("C15", "C15.1")
	defer runC07PathBoundNotQuery(c)
	defer runC07QuoteOnlyWhenUnquoted(c)
	defer runC07EscapedRequestLineKept(c)
	p := c.P
	// clause shared with C11: binding a repeated well-known-type parameter must not panic
	defer c.ImportRules("C11", "C11.12", "C11.16")
	// clause shared with C19: the query parameters applied are the client's (parsed before the URL is rewritten)
	defer c.ImportRules("C19", "C19.4")

	// ---------------------------------------------------------------- C07.1
	c.Rule("C07.1", "every failure of the parameter setter is invalid_argument", 2)
	setParam := p.MustFunc("setParameter")
	var invArg constant.Value
	for _, pk := range p.RootPkg.Types.Imports() {
		if pk.Path() == "connectrpc.com/connect" {
			if k, ok := pk.Scope().Lookup("CodeInvalidArgument").(*types.Const); ok {
				invArg = k.Val()
			}
		}
	}
	if invArg == nil {
		fatalf("anchor=connect.CodeInvalidArgument not found")
	}
	ForEachInstr(setParam, func(in ssa.Instruction) {
		ret, ok := in.(*ssa.Return)
		if !ok || len(ret.Results) != 1 {
			return
		}
		good := true
		nonNil := false
		for _, l := range Origins(ret.Results[0]) {
			switch {
			case l.Kind == "nil":
			case l.Kind == "call" && IsCallTo(l.Call, "connectrpc.com/connect.NewError"):
				nonNil = true
				code, ok := l.Call.Common().Args[0].(*ssa.Const)
				if !ok || code.Value == nil || !constant.Compare(code.Value, token.EQL, invArg) {
					good = false
				}
			default:
				good = false
				nonNil = true
			}
		}
		if nonNil {
			c.Check(good, "C07.1", FuncName(setParam), "error-return", ret.Pos(),
				"the error is connect.NewError(CodeInvalidArgument, ...)", "a parameter that does not fit its field is reported with something other than invalid_argument")
		} else {
			c.Trivial("C07.1", FuncName(setParam), "success-return", ret.Pos(), "success return")
		}
	})
	// the unmarshal error is tested (not dropped) before the value is set
	unm := p.MustFunc("unmarshalFieldValue")
	for _, call := range Calls(setParam) {
		for _, cal := range p.CalleesAt(call) {
			if cal != unm {
				continue
			}
			tested := false
			if cv, ok := call.(*ssa.Call); ok {
				for _, ref := range *cv.Referrers() {
					if ex, ok := ref.(*ssa.Extract); ok && ex.Index == 1 {
						for _, r2 := range *ex.Referrers() {
							if b, ok := r2.(*ssa.BinOp); ok && b.Op == token.NEQ && IsNilConst(b.Y) {
								tested = true
							}
						}
					}
				}
			}
			c.Check(tested, "C07.1", FuncName(setParam), "conversion-error-tested", call.Pos(),
				"the string->value conversion error is tested before the value is used", "the string->value conversion error is not tested: a value that does not fit is coerced")
		}
	}

	// ---------------------------------------------------------------- C07.2
	c.Rule("C07.2", "marshal and unmarshal kind tables agree and cover every protoreflect.Kind", 3)
	mar := p.MustFunc("marshalFieldValue")
	mk, mdef, mpos := kindSwitchCases(p, mar)
	uk, udef, upos := kindSwitchCases(p, unm)
	if mk == nil || uk == nil {
		c.Unknown("C07.2", "marshal/unmarshalFieldValue", "kind-switch", mpos, "kind switch not found in one of the two tables")
	} else {
		// all declared Kind constants
		all := map[string]string{}
		for _, pk := range p.RootPkg.Types.Imports() {
			if pk.Path() == "google.golang.org/protobuf/reflect/protoreflect" {
				for _, name := range pk.Scope().Names() {
					if k, ok := pk.Scope().Lookup(name).(*types.Const); ok && isNamed(k.Type(), pk.Path(), "Kind") && strings.HasSuffix(name, "Kind") {
						all[k.Val().ExactString()] = name
					}
				}
			}
		}
		var onlyM, onlyU, missing []string
		for v := range mk {
			if !uk[v] {
				onlyM = append(onlyM, all[v])
			}
		}
		for v := range uk {
			if !mk[v] {
				onlyU = append(onlyU, all[v])
			}
		}
		for v, name := range all {
			if !mk[v] || !uk[v] {
				missing = append(missing, name)
			}
		}
		sort.Strings(onlyM)
		sort.Strings(onlyU)
		sort.Strings(missing)
		c.Check(len(onlyM) == 0 && len(onlyU) == 0, "C07.2", "marshal/unmarshalFieldValue", "directions-agree", mpos,
			"value->string and string->value handle the same kinds ("+itoa(len(mk))+")",
			"the two directions handle different kinds: only marshalled: "+joinStr(onlyM)+"; only unmarshalled: "+joinStr(onlyU)+" - such a field survives one direction of the URL mapping but not the other")
		c.Check(len(missing) == 0 && len(all) >= 18, "C07.2", "marshal/unmarshalFieldValue", "covers-all-kinds", upos,
			"every declared protoreflect.Kind ("+itoa(len(all))+") has a case in both tables", "kinds without a case: "+joinStr(missing))
		c.Check(mdef && udef, "C07.2", "marshal/unmarshalFieldValue", "default-rejects", mpos,
			"both tables have a default clause (unknown kinds are errors)", "a table lacks the default (error) clause")
	}
	wktList := stringSwitchCases(p, p.MustFunc("isWKTWithScalarJSONMapping"))
	for _, name := range []string{"marshalFieldWKT", "unmarshalFieldWKT"} {
		fn := p.MustFunc(name)
		var outside []string
		for s := range stringSwitchCases(p, fn) {
			if !wktList[s] {
				outside = append(outside, s)
			}
		}
		sort.Strings(outside)
		c.Check(len(outside) == 0 && len(wktList) >= 10, "C07.2", name, "wkt-names-within-list", fn.Pos(),
			"the well-known-type cases are all members of the scalar-JSON well-known-type list", "well-known-type cases outside the accepted list: "+joinStr(outside))
	}

	// ---------------------------------------------------------------- C07.3
	c.Rule("C07.3", "binding order: body, then path variables, then query parameters; each phase returns its error at once", 3)
	rcp := p.MustNamed("restClientProtocol")
	prep := p.MethodOf(rcp, "prepareUnmarshalledRequest")
	fromBody := p.MethodOf(rcp, "prepareUnmarshalledRequestFromBody")
	if prep == nil || fromBody == nil {
		fatalf("anchor=restClientProtocol.prepareUnmarshalledRequest(FromBody) not found")
	}
	restVarsFld := p.MustField("operation", "restVars")
	var bodyCall, varsCall, queryCall ssa.CallInstruction
	for _, call := range Calls(prep) {
		for _, cal := range p.CalleesAt(call) {
			if cal == fromBody {
				bodyCall = call
			}
			if cal == setParam {
				arg := call.Common().Args[2]
				fromVars, fromQuery := false, false
				for _, l := range Origins(arg) {
					if strings.Contains(l.Path, "."+N(restVarsFld)) || l.Kind == "load" && l.Field != nil && N(l.Field) == "value" {
						fromVars = true
					}
					if l.Kind == "load" && strings.HasSuffix(l.Path, "[]") && !strings.Contains(l.Path, "restVars") {
						fromQuery = true
					}
				}
				if fromVars {
					varsCall = call
				} else if fromQuery {
					queryCall = call
				}
			}
		}
	}
	if bodyCall == nil || varsCall == nil || queryCall == nil {
		c.Bad("C07.3", FuncName(prep), "phases", prep.Pos(), "the three binding phases (body, path variables, query parameters) were not all found: "+boolStr(bodyCall != nil)+"/"+boolStr(varsCall != nil)+"/"+boolStr(queryCall != nil))
	} else {
		is := func(x ssa.CallInstruction) func(ssa.Instruction) bool {
			return func(in ssa.Instruction) bool { return in == ssa.Instruction(x) }
		}
		f1, _ := PathQuery{Target: is(varsCall), Avoid: is(bodyCall)}.Search(prep, nil)
		f2, _ := PathQuery{Target: is(queryCall), Avoid: is(bodyCall)}.Search(prep, nil)
		c.Check(!f1 && !f2, "C07.3", FuncName(prep), "body-first", bodyCall.Pos(),
			"path variables and query parameters are applied only after the body was decoded", "a path or query parameter can be applied before the body is decoded (the body would overwrite it)")
		back, _ := MayReach(prep, queryCall, is(varsCall))
		fwd, _ := MayReach(prep, varsCall, is(queryCall))
		c.Check(!back && fwd, "C07.3", FuncName(prep), "vars-before-query", varsCall.Pos(),
			"query parameters are applied after all path variables, never before", "path variables can be applied after query parameters (wrong precedence)")
		for _, ph := range []ssa.CallInstruction{bodyCall, varsCall, queryCall} {
			cv := ph.(*ssa.Call)
			var iff *ssa.If
			for _, ref := range *cv.Referrers() {
				if b, ok := ref.(*ssa.BinOp); ok && b.Op == token.NEQ && IsNilConst(b.Y) {
					for _, r2 := range *b.Referrers() {
						if i2, ok := r2.(*ssa.If); ok {
							iff = i2
						}
					}
				}
			}
			good := false
			if iff != nil {
				good, _ = succReturnsOnlyErrors(prep, iff.Block().Succs[0], 0)
			}
			c.Check(good, "C07.3", FuncName(prep), "phase-error-returned:"+CalleeName(ph), ph.Pos(),
				"the phase's error is returned immediately", "a phase's error is not returned immediately: later phases run on a partially bound message")
		}
	}

	// ---------------------------------------------------------------- C07.5
	c.Rule("C07.5", "a multi-segment variable must produce exactly as many segments as its template has", 1)
	enc := p.MustFunc("httpEncodePathValues")
	nSeg := 0
	var ops []string
	// the builder and the helpers it was cut into (refactoring B24_r6)
	forEachUnder := func(root *ssa.Function, f func(ssa.Instruction)) {
		for _, g := range SortedFuncs(p.Reach(root)) {
			if p.inScope(g) {
				ForEachInstr(g, f)
			}
		}
	}
	forEachUnder(enc, func(in ssa.Instruction) {
		b, ok := in.(*ssa.BinOp)
		if !ok {
			return
		}
		switch b.Op {
		case token.EQL, token.NEQ, token.LSS, token.GTR, token.LEQ, token.GEQ:
		default:
			return
		}
		isLenVals := func(v ssa.Value) bool {
			call, ok := v.(*ssa.Call)
			if !ok || CalleeName(call) != "builtin len" {
				return false
			}
			for _, l := range Origins(call.Call.Args[0]) {
				if l.Kind == "call" {
					for _, cal := range p.CalleesAt(l.Call) {
						if FuncName(cal) == "httpSplitVar" {
							return true
						}
					}
				}
			}
			return false
		}
		isSize := func(v ssa.Value) bool {
			for _, l := range Origins(v) {
				if l.Kind == "call" {
					for _, cal := range p.CalleesAt(l.Call) {
						if FuncName(cal) == "(routeTargetVar).size" {
							return true
						}
					}
				}
			}
			return false
		}
		if isLenVals(b.X) && isSize(b.Y) || isLenVals(b.Y) && isSize(b.X) {
			nSeg++
			ops = append(ops, b.Op.String())
		}
	})
	okSeg := nSeg > 0
	hasL, hasG := false, false
	for _, o := range ops {
		switch o {
		case "<", "<=":
			hasL = true
		case ">", ">=":
			hasG = true
		}
	}
	for _, o := range ops {
		if o != "==" && o != "!=" && !(hasL && hasG) {
			okSeg = false
		}
	}
	c.Check(okSeg, "C07.5", FuncName(enc), "segment-count-exact", enc.Pos(),
		"the number of segments generated for a fixed-size variable is compared for equality with the template's segment count",
		"the generated segment count of a multi-segment variable is not required to EQUAL the template's count (comparisons found: "+joinStr(ops)+"): a value with extra segments spills into the following template segments and re-parses to a different message")

	// ---------------------------------------------------------------- C07.7
	c.Rule("C07.7", "the escaped path produced by a request-line builder is kept as URL.RawPath", 1)
	handleFn := p.MustFunc("(*operation).handle")
	okRaw := false
	nRawStores := 0
	for _, w := range FieldWrites(handleFn) {
		if N(w.Field) != "RawPath" || !isPtrTo(w.Base.Type(), "net/url", "URL") {
			continue
		}
		nRawStores++
		fromBuilder := func(v ssa.Value) bool {
			for _, l := range Origins(v) {
				if l.Kind == "call" && l.Call.Common().IsInvoke() && N(l.Call.Common().Method) == "requestLine" && l.Index == 0 && len(l.Ops) == 0 {
					return true
				}
			}
			return false
		}
		if fromBuilder(w.Store.Val) {
			okRaw = true
		}
		// or: the value is a re-load of URL.Path, which a dominating store filled from the builder
		if lf := LoadedField(w.Store.Val); lf != nil && N(lf) == "Path" && lf.Pkg() != nil && lf.Pkg().Path() == "net/url" {
			ld, _ := strip(w.Store.Val).(ssa.Instruction)
			for _, w2 := range FieldWrites(handleFn) {
				if w2.Field != lf || !instrBefore(w2.Store, w.Store) || !fromBuilder(w2.Store.Val) || ld == nil {
					continue
				}
				// the load must see the builder's value: it is reached from the builder's store
				// without passing another store to URL.Path (e.g. the unescaped form)
				otherPathStore := func(in ssa.Instruction) bool {
					st, ok := in.(*ssa.Store)
					if !ok || st == w2.Store {
						return false
					}
					fa, ok := st.Addr.(*ssa.FieldAddr)
					return ok && FieldOfAddr(fa) == lf
				}
				if found, _ := (PathQuery{Target: func(in ssa.Instruction) bool { return in == ld }, Avoid: otherPathStore}).Search(handleFn, w2.Store); found {
					okRaw = true
				}
			}
		}
	}
	c.Check(okRaw && nRawStores > 0, "C07.7", FuncName(handleFn), "rawpath-keeps-escaped-form", handleFn.Pos(),
		"URL.RawPath is stored from the request-line builder's own (escaped) path", "the escaped path computed for the backend is not preserved in URL.RawPath: net/url re-escapes the decoded path with a smaller escape set, so '/', ':' ... inside a variable value change the segment structure and the request no longer re-parses to the original message")

	// ---------------------------------------------------------------- C07.8
	// A google.api.HttpBody request body carries two things: the bytes and the Content-Type.  The
	// content type must be bound whatever the length of the body - an empty upload still has one.
	c.Rule("C07.8", "the request's content type is bound into an HttpBody body field independently of the body's length", 1)
	{
		ctF := p.MustField("operation", "reqContentType")
		nCT := 0
		for _, fn := range p.Funcs {
			if !p.inScope(fn) {
				continue
			}
			for _, call := range Calls(fn) {
				cc := call.Common()
				if !cc.IsInvoke() || N(cc.Method) != "Set" || len(cc.Args) != 2 {
					continue
				}
				fromCT := false
				for _, l := range Origins(cc.Args[1]) {
					if l.Kind == "call" {
						for _, a := range l.Call.Common().Args {
							for _, l2 := range Origins(a) {
								if l2.Kind == "load" && l2.Field == ctF {
									fromCT = true
								}
							}
						}
					}
					if l.Kind == "load" && l.Field == ctF {
						fromCT = true
					}
				}
				// the value may be a parameter of an accessor helper (refactoring B24_r1:
				// restSetHTTPBody(msg, op.reqContentType, src)): judged at the call sites that
				// pass the request's content type
				factBlocks := []*ssa.BasicBlock{call.Block()}
				if !fromCT {
					for _, l := range Origins(cc.Args[1]) {
						var prm *ssa.Parameter
						if l.Kind == "call" {
							for _, a := range l.Call.Common().Args {
								if q, ok := strip(a).(*ssa.Parameter); ok {
									prm = q
								}
							}
						} else if l.Kind == "param" {
							prm, _ = l.V.(*ssa.Parameter)
						}
						if prm == nil {
							continue
						}
						idx := -1
						for i, q := range fn.Params {
							if q == prm {
								idx = i
							}
						}
						for _, e := range p.Callers(fn) {
							if idx < 0 || e.Kind != "static" || e.Site == nil || idx >= len(e.Site.Common().Args) {
								continue
							}
							for _, l2 := range Origins(e.Site.Common().Args[idx]) {
								if l2.Kind == "load" && l2.Field == ctF {
									if !fromCT {
										factBlocks = nil
									}
									fromCT = true
									factBlocks = append(factBlocks, e.Site.Block())
								}
							}
						}
					}
				}
				if !fromCT {
					continue
				}
				nCT++
				// no dominating fact may exclude the empty body
				excluded := ""
				var allFacts []Fact
				for _, fb := range factBlocks {
					allFacts = append(allFacts, p.FactsAtInter(fb)...)
				}
				for _, f := range allFacts {
					cmp, ok := f.AsCmp()
					if !ok {
						continue
					}
					lc, isLen := cmp.X.(*ssa.Call)
					if !isLen || CalleeName(lc) != "builtin len" {
						continue
					}
					if _, isParam := strip(lc.Call.Args[0]).(*ssa.Parameter); !isParam {
						continue
					}
					k, isK := ConstInt(cmp.Y)
					if !isK {
						continue
					}
					// the fact holds at the call: does it rule out len == 0 ?
					rulesOut := false
					switch cmp.Op {
					case token.GTR:
						rulesOut = k >= 0
					case token.GEQ:
						rulesOut = k >= 1
					case token.NEQ:
						rulesOut = k == 0
					case token.EQL:
						rulesOut = k != 0
					}
					if rulesOut {
						excluded = p.Pos(f.If.Pos())
					}
				}
				c.Check(excluded == "", "C07.8", FuncName(fn), "content-type-bound-for-empty-body", call.Pos(),
					"the content type is stored into the HttpBody field on a path that an empty body also takes",
					"the HttpBody content_type is only set when the body is non-empty (test at "+excluded+"): a zero-length upload loses its Content-Type and the body field's presence, so the REST request does not bind to the message the same content would give")
			}
		}
		if nCT == 0 {
			c.Bad("C07.8", "rest", "content-type-bound-for-empty-body", token.NoPos, "the request content type is never bound into a message field: shape changed")
		}
	}

	// ---------------------------------------------------------------- C07.6
	c.Rule("C07.6", "query parameters generated inside loops are added, not overwritten", 1)
	encFn := p.MustFunc("httpEncodePathValues")
	nQ := 0
	// functions (helpers, closures) that are called - directly or further down - from inside a
	// loop of the encoder: a Set in one of them is a Set per element just the same (seed C01k moved
	// the Add into a helper closure that uses Set)
	calledInLoop := map[*ssa.Function]bool{}
	for _, fn := range SortedFuncs(p.Reach(encFn)) {
		if !p.inScope(fn) {
			continue
		}
		for _, call := range Calls(fn) {
			if inL, _ := MayReach(fn, call, func(in ssa.Instruction) bool { return in == ssa.Instruction(call) }); !inL {
				continue
			}
			for _, cal := range p.CalleesAt(call) {
				if !p.inScope(cal) {
					continue
				}
				for f := range p.Reach(cal) {
					if p.inScope(f) {
						calledInLoop[f] = true
					}
				}
			}
		}
	}
	for _, fn := range SortedFuncs(p.Reach(encFn)) {
		if !p.inScope(fn) {
			continue
		}
		for _, call := range Calls(fn) {
			if !IsCallTo(call, "(net/url.Values).Set", "(net/url.Values).Add") {
				continue
			}
			nQ++
			inLoop, _ := MayReach(fn, call, func(in ssa.Instruction) bool { return in == ssa.Instruction(call) })
			inLoop = inLoop || calledInLoop[fn]
			isSet := IsCallTo(call, "(net/url.Values).Set")
			c.Check(!(isSet && inLoop), "C07.6", FuncName(fn), "query-multi-value", call.Pos(),
				"query values produced in a loop are appended with Add", "url.Values.Set inside a loop: every element of a repeated field overwrites the previous one, the REST backend receives only the last")
		}
	}
	if nQ == 0 {
		c.Bad("C07.6", FuncName(encFn), "query-multi-value", encFn.Pos(), "no query value generation found: shape changed")
	}

	// ---------------------------------------------------------------- C07.4
	c.Rule("C07.4", "the needs-preparation predicate consults every input source the preparer consumes", 3)
	needs := p.MethodOf(rcp, "requestNeedsPrep")
	if needs == nil {
		fatalf("anchor=restClientProtocol.requestNeedsPrep not found")
	}
	type source struct {
		name string
		uses func(fn *ssa.Function) bool
	}
	varsFld := p.MustField("routeTarget", "vars")
	bodyFld := p.MustField("routeTarget", "requestBodyFields")
	loads := func(flds ...*types.Var) func(*ssa.Function) bool {
		return func(fn *ssa.Function) bool {
			for _, f := range flds {
				if len(LoadsOfField(fn, f)) > 0 {
					return true
				}
			}
			return false
		}
	}
	calls := func(names ...string) func(*ssa.Function) bool {
		return func(fn *ssa.Function) bool {
			for _, call := range Calls(fn) {
				n := CalleeName(call)
				for _, want := range names {
					if n == want {
						return true
					}
				}
				for _, cal := range p.CalleesAt(call) {
					for _, want := range names {
						if FuncName(cal) == want {
							return true
						}
					}
				}
			}
			return false
		}
	}
	sources := []source{
		{"path variables", loads(restVarsFld, varsFld)},
		{"query string", calls("(*net/url.URL).Query", "(*operation).queryValues")},
		{"body selector", loads(bodyFld)},
		{"HttpBody body", calls("restHTTPBodyRequest", "restIsHTTPBody")},
	}
	usedBy := func(root *ssa.Function, s source) bool {
		for fn := range p.Reach(root) {
			if p.inScope(fn) && s.uses(fn) {
				return true
			}
		}
		return false
	}
	for _, s := range sources {
		if !usedBy(prep, s) {
			c.Trivial("C07.4", FuncName(needs), "source:"+s.name, needs.Pos(), "the preparer does not consume this source")
			continue
		}
		c.Check(usedBy(needs, s), "C07.4", FuncName(needs), "source:"+s.name, needs.Pos(),
			"the predicate consults the "+s.name+", which the preparer consumes",
			"the preparer builds the request message from the "+s.name+" but the needs-preparation predicate never looks at it: a request carrying only that source skips preparation and the source is ignored")
	}
}

// runC07QuoteOnlyWhenUnquoted: C07.10 (seed C07i).  A string-typed path or query value is turned
// into a JSON string before it is unmarshalled into the field.  The value is passed through
// unquoted only when it already IS a quoted string - it starts AND ends with a double quote -
// or is empty.  A helper that skips the quoting when just one end carries a quote (`&&` for `||`
// in the test) hands `"abc` or `abc"` to the JSON codec verbatim: the request is rejected
// although the same value is perfectly legal in the gRPC / Connect form of the call.  Decided
// on the paths of every helper that applies strconv.AppendQuote to its []byte parameter: a path
// that returns without quoting knows the length test failed or saw two byte comparisons with
// '"' come out equal.
func runC07QuoteOnlyWhenUnquoted(c *Ctx) {
	p := c.P
	c.Rule("C07.10", "a string value is passed through unquoted only when both ends are quotes", 1)
	n := 0
	for _, fn := range p.Funcs {
		if !p.inScope(fn) || len(fn.Params) == 0 || len(fn.Blocks) == 0 {
			continue
		}
		var quoteCalls []ssa.Instruction
		for _, call := range Calls(fn) {
			if IsCallTo(call, "strconv.AppendQuote") {
				quoteCalls = append(quoteCalls, call)
			}
		}
		if len(quoteCalls) == 0 || fn.Signature.Results().Len() != 1 {
			continue
		}
		if _, isSlice := fn.Signature.Results().At(0).Type().Underlying().(*types.Slice); !isSlice {
			continue
		}
		n++
		paths, ok := EnumPaths(fn.Blocks[0], nil, IsReturn, 0)
		if !ok {
			c.Unknown("C07.10", FuncName(fn), "unquoted-only-when-both-ends-quoted", fn.Pos(), "too many paths")
			continue
		}
		bad := 0
		for _, cp := range paths {
			quoted := false
			for _, b := range cp.Blocks {
				for _, in := range b.Instrs {
					for _, q := range quoteCalls {
						if in == q {
							quoted = true
						}
					}
				}
			}
			if quoted {
				continue
			}
			empty, ends := false, map[string]bool{}
			for cond, truth := range cp.Truth {
				bo, isB := cond.(*ssa.BinOp)
				if !isB {
					continue
				}
				x, y := bo.X, bo.Y
				if k, isK := ConstInt(x); isK {
					x, y = y, x
					_ = k
				}
				k, isK := ConstInt(y)
				if !isK {
					continue
				}
				if call, isCall := x.(*ssa.Call); isCall {
					if b, isBuiltin := call.Call.Value.(*ssa.Builtin); isBuiltin && b.Name() == "len" {
						// len(raw) > 0 false, len(raw) == 0 true, len(raw) != 0 false ...
						if k == 0 && ((bo.Op == token.GTR || bo.Op == token.NEQ) && !truth || (bo.Op == token.EQL || bo.Op == token.LEQ) && truth) {
							empty = true
						}
						continue
					}
				}
				if k != '"' {
					continue
				}
				if (bo.Op == token.NEQ && !truth) || (bo.Op == token.EQL && truth) {
					// which byte?  key by the index expression
					if u, isU := x.(*ssa.UnOp); isU && u.Op == token.MUL {
						if ia, isIA := u.X.(*ssa.IndexAddr); isIA {
							if ik, isIK := ConstInt(ia.Index); isIK {
								ends["const"+itoa(int(ik))] = true
							} else {
								ends["expr"] = true
							}
							continue
						}
					}
					ends[x.Name()] = true
				}
			}
			if !empty && len(ends) < 2 {
				bad++
			}
		}
		c.Check(bad == 0, "C07.10", FuncName(fn), "unquoted-only-when-both-ends-quoted", fn.Pos(),
			"every path that returns the value unquoted knows it is empty or that its first and its last byte are double quotes",
			itoa(bad)+" path(s) return the value without quoting it although only one of its ends (or none) was seen to be a double quote: a string parameter such as `\"abc` reaches the JSON codec verbatim and the request is rejected, while the same value is accepted through the other protocols")
	}
	if n == 0 {
		c.Bad("C07.10", "package", "unquoted-only-when-both-ends-quoted", token.NoPos, "no helper quotes a parameter value with strconv.AppendQuote: shape changed")
	}
}

// runC07EscapedRequestLineKept: C07.11 (seed C07l).  The request line built for a REST backend is
// in escaped form; net/http sends URL.RawPath when it is a valid encoding of URL.Path and
// otherwise re-derives the escaping from Path - and that default leaves ':' (the start of the
// custom verb under google.api.http), '@', '$', '+', ... unescaped.  So whenever unescaping
// changes the path at all, the escaped form is kept as RawPath: the store of the escaped path
// hangs on nothing but 'unescaping succeeded' and 'it differs' - not on a guess which escapes
// net/url would reproduce (only "%2F").
func runC07EscapedRequestLineKept(c *Ctx) {
	p := c.P
	c.Rule("C07.11", "the escaped request line is kept as RawPath whenever unescaping changes the path", 1)
	n := 0
	for _, fn := range p.Funcs {
		if !p.inScope(fn) {
			continue
		}
		for _, call := range Calls(fn) {
			if !IsCallTo(call, "net/url.PathUnescape") || call.Value() == nil {
				continue
			}
			var unesc, errV ssa.Value
			for _, ref := range *call.Value().Referrers() {
				if ex, ok := ref.(*ssa.Extract); ok {
					if ex.Index == 0 {
						unesc = ex
					} else {
						errV = ex
					}
				}
			}
			// stores of a non-constant value into URL.RawPath that this call reaches
			var stores []*ssa.Store
			ForEachInstr(fn, func(in ssa.Instruction) {
				st, ok := in.(*ssa.Store)
				if !ok {
					return
				}
				fa, ok := st.Addr.(*ssa.FieldAddr)
				if !ok || FieldOfAddr(fa).Name() != "RawPath" || !isPtrTo(fa.X.Type(), "net/url", "URL") {
					return
				}
				if _, isConst := st.Val.(*ssa.Const); isConst {
					return
				}
				if !call.Block().Dominates(st.Block()) {
					return
				}
				stores = append(stores, st)
			})
			if len(stores) == 0 {
				continue
			}
			n++
			base := map[ssa.Value]bool{}
			for _, f := range FactsAt(call.Block()) {
				base[f.Cond] = true
			}
			good := false
			extra := ""
			for _, st := range stores {
				only := true
				for _, f := range FactsAt(st.Block()) {
					if base[f.Cond] {
						continue
					}
					if cmp, ok := f.AsCmp(); ok {
						if errV != nil && cmp.X == errV && IsNilConst(cmp.Y) {
							continue
						}
						if unesc != nil && (cmp.X == unesc || cmp.Y == unesc) && (cmp.Op == token.NEQ || cmp.Op == token.EQL) {
							continue
						}
					}
					only = false
					extra = f.Cond.String()
				}
				if only {
					good = true
				}
			}
			c.Check(good, "C07.11", FuncName(fn), "escaped-path-kept", call.Pos(),
				"the escaped path is stored as RawPath under no other condition than 'unescaping succeeded and changed the path'",
				"the escaped request line is kept as URL.RawPath only under a further condition ("+extra+"): for the other escapes net/http re-derives the path from URL.Path and leaves ':' '@' '+' ... unescaped, so a path-bound value with ':' in its last segment is sent as a custom verb and the REST request no longer parses back to the message it was made from")
		}
	}
	if n == 0 {
		c.Bad("C07.11", "package", "escaped-path-kept", token.NoPos, "no function unescapes a request path and stores RawPath: shape changed")
	}
}

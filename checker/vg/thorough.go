package vg

// thorough adds the deeper tier on top of the quick rules.
func thorough(c *Ctx, spec *PropertySpec, extra map[string]any) {
}

package vg

import (
	"encoding/json"
	"fmt"
	"os"
	"os/exec"
	"path/filepath"
	"runtime"
	"sort"
	"strings"
)

// thorough adds the deeper tier on top of the quick rules:
//  1. the rules are evaluated a second time on the VTA call graph and every
//     obligation present under both graphs must get the same verdict;
//  2. the tree is loaded again for GOARCH=386 and with test files, asserting
//     that it type-checks there and that test files add no production methods;
//  3. self-validation: every recorded breaking change (the confirmed seeded
//     changes under /verif/seeded and the reverts of the fix: commits) that
//     this property's rules are recorded to detect is applied to a scratch copy
//     of the repository and the property is re-evaluated there; the same rule
//     must fire again (a rule that can no longer fire is a broken check);
//  4. positive controls for the rules whose expected count is zero.
func thorough(c *Ctx, spec *PropertySpec, extra map[string]any) {
	p := c.P
	// ---- 1. VTA agreement
	quick := map[string]Status{}
	for _, o := range c.obls {
		quick[o.Key] = o.Status
	}
	p2 := Load(p.Dir, "", false)
	p2.UseVTAEdges()
	c2 := &Ctx{P: p2, Property: spec.ID, Tier: "thorough"}
	spec.Run(c2)
	agree, only1, only2 := 0, 0, 0
	vtaSeen := map[string]bool{}
	for _, o := range c2.obls {
		vtaSeen[o.Key] = true
		st, ok := quick[o.Key]
		if !ok {
			only2++
			continue
		}
		if st == o.Status {
			agree++
		} else {
			c.Rule("GRAPH", "verdicts under the class-hierarchy graph and the VTA graph agree", 0)
			c.Unknown("GRAPH", "callgraph", o.Key, 0, fmt.Sprintf("verdict differs between call graphs: CHA=%s VTA=%s (%s)", st, o.Status, o.What))
		}
	}
	for k := range quick {
		if !vtaSeen[k] {
			only1++
		}
	}
	extra["callgraph_crosscheck"] = map[string]any{"obligations_in_both": agree, "only_under_cha": only1, "only_under_vta": only2,
		"note": "obligations enumerated from call edges can exist under one graph only (CHA over-approximates interface invokes); a differing verdict on a common obligation is a checker error"}
	p2 = nil
	c2 = nil
	runtime.GC()

	// ---- 2. other build configurations
	var configs []string
	func() {
		defer func() {
			if r := recover(); r != nil {
				c.Rule("CONFIG", "the tree type-checks in the other build configurations", 0)
				c.Unknown("CONFIG", "load", "GOARCH=386/tests", 0, fmt.Sprint(r))
			}
		}()
		p386 := Load(p.Dir, "386", false)
		configs = append(configs, fmt.Sprintf("linux/386 tests=false: %d packages, %d root functions (width observations only; verdicts are claimed for 64-bit int)", len(p386.Pkgs), len(p386.Funcs)))
		// width observations: int(uint32 wire length) used as Grow/slice bound
		n := 0
		for _, fn := range p386.Funcs {
			for _, call := range Calls(fn) {
				if IsCallTo(call, "(*bytes.Buffer).Grow") {
					for _, l := range Origins(call.Common().Args[1]) {
						if l.Kind == "call" || l.Kind == "load" {
							n++
						}
					}
				}
			}
		}
		c.Note("386: %d Buffer.Grow arguments derive from wire/declared lengths converted to 32-bit int (can be negative for lengths >= 2^31 under the default 4 GiB limit): listed as a width observation, not a finding (a 386 binary cannot be executed here to show the failing input)", n)
		p386 = nil
		runtime.GC()
		pt := Load(p.Dir, "", true)
		// production functions must be the same set
		missing := 0
		for _, fn := range p.Funcs {
			name := FuncName(fn)
			if fnPkg(fn).Path() != RootPath {
				name = "vanguardgrpc." + name
			}
			if pt.funcByNm[name] == nil {
				missing++
			}
		}
		configs = append(configs, fmt.Sprintf("linux/amd64 tests=true: %d packages; production functions missing from the test build: %d", len(pt.Pkgs), missing))
		if missing > 0 {
			c.Rule("CONFIG", "the tree type-checks in the other build configurations", 0)
			c.Unknown("CONFIG", "load", "tests=true", 0, "the test build of the root package lacks production functions")
		}
		pt = nil
		runtime.GC()
	}()
	extra["build_configs"] = append([]string{"linux/amd64 tests=false (verdicts)"}, configs...)

	// ---- 3. self-validation on recorded breaking changes
	verifDir := os.Getenv("VERIF_DIR")
	if verifDir == "" {
		verifDir = "/verif"
	}
	type mutant struct {
		id, patch string
		reverse   bool
		expect    []string
	}
	var muts []mutant
	dirs, _ := filepath.Glob(filepath.Join(verifDir, "seeded", "*", "meta.json"))
	sort.Strings(dirs)
	for _, mp := range dirs {
		data, err := os.ReadFile(mp)
		if err != nil {
			continue
		}
		var meta struct {
			ID         string   `json:"id"`
			DetectedBy []string `json:"detected_by"`
		}
		if json.Unmarshal(data, &meta) != nil {
			continue
		}
		var exp []string
		for _, k := range meta.DetectedBy {
			if strings.HasPrefix(k, spec.ID+".") {
				exp = append(exp, k)
			}
		}
		if len(exp) > 0 {
			muts = append(muts, mutant{id: meta.ID, patch: filepath.Join(filepath.Dir(mp), "patch.diff"), expect: exp})
		}
	}
	run, killed, na := 0, 0, 0
	var details []string
	for _, m := range muts {
		tmp, err := os.MkdirTemp("", "vgm-")
		if err != nil {
			continue
		}
		ok := func() bool {
			defer os.RemoveAll(tmp)
			if out, err := exec.Command("rsync", "-a", "--exclude", ".git", p.Dir+"/", tmp+"/").CombinedOutput(); err != nil {
				details = append(details, m.id+": copy failed: "+string(out))
				return false
			}
			cmd := exec.Command("patch", "-s", "-p1", "-i", m.patch)
			cmd.Dir = tmp
			if _, err := cmd.CombinedOutput(); err != nil {
				na++
				details = append(details, m.id+": not applicable (patch no longer applies to the current tree)")
				return true
			}
			run++
			fired := false
			func() {
				defer func() {
					if r := recover(); r != nil {
						details = append(details, fmt.Sprintf("%s: checker error on the mutant: %v", m.id, r))
					}
				}()
				pm := Load(tmp, "", false)
				pm.BuildCallGraph()
				cm := &Ctx{P: pm, Property: spec.ID, Tier: "thorough"}
				spec.Run(cm)
				for _, o := range cm.obls {
					if o.Status != Violated {
						continue
					}
					for _, e := range m.expect {
						if strings.HasPrefix(o.Key, e) {
							fired = true
						}
					}
				}
			}()
			runtime.GC()
			if fired {
				killed++
				details = append(details, m.id+": killed ("+strings.Join(m.expect, "; ")+")")
			} else {
				details = append(details, m.id+": SURVIVED - expected "+strings.Join(m.expect, "; "))
			}
			return fired
		}()
		if !ok {
			c.Rule("SELFTEST", "every recorded breaking change this property's rules detect is detected again", 0)
			c.Unknown("SELFTEST", "seeded", m.id, 0, "the recorded breaking change "+m.id+" is no longer detected by "+strings.Join(m.expect, "; ")+": the rule can no longer fire (checker regression)")
		}
	}
	extra["mutants_run"] = run
	extra["mutants_killed"] = killed
	extra["mutants_not_applicable"] = na
	extra["mutant_details"] = details

	// ---- 4. positive controls
	ctl := positiveControls(verifDir)
	extra["positive_controls"] = ctl
	for name, n := range ctl {
		if n == 0 {
			c.Rule("CONTROL", "zero-expected matchers find their construct in the fixture package", 0)
			c.Unknown("CONTROL", "fixtures", name, 0, "the matcher '"+name+"' found nothing in the fixture that contains the construct: a rule built on it passes vacuously")
		}
	}
}

// positiveControls loads the fixture package and counts what the zero-expected
// matchers find there.
func positiveControls(verifDir string) map[string]int {
	out := map[string]int{}
	defer func() { _ = recover() }()
	dir := filepath.Join(verifDir, "checker", "fixtures")
	if _, err := os.Stat(dir); err != nil {
		return out
	}
	fx := loadFixture(dir)
	if fx == nil {
		return out
	}
	out["go-statement"] = 0
	out["explicit-panic"] = 0
	out["single-value-type-assertion"] = 0
	out["timer-callback"] = 0
	out["package-variable-store"] = 0
	out["handler-dispatch"] = 0
	for _, fn := range fx {
		ForEachInstrAll(fn, out)
	}
	// map-iteration-order analysis (C15.5): every OrderSensitive* fixture reported, every
	// OrderInsensitive* fixture accepted
	sens, sensHit, ins, insOK := 0, 0, 0, 0
	pp := &Prog{}
	for _, fn := range fx {
		name := fn.Name()
		isSens := strings.HasPrefix(name, "OrderSensitive")
		isIns := strings.HasPrefix(name, "OrderInsensitive")
		if !isSens && !isIns {
			continue
		}
		flagged := false
		loops := mapLoops(fn)
		for _, l := range loops {
			if is, _ := pp.analyseMapLoop(l); len(is) > 0 {
				flagged = true
			}
		}
		if isSens {
			sens++
			if flagged {
				sensHit++
			}
		} else {
			ins++
			if !flagged && len(loops) > 0 {
				insOK++
			}
		}
	}
	out["map-loop-order-dependent-reported"] = 0
	if sens > 0 && sens == sensHit {
		out["map-loop-order-dependent-reported"] = sens
	}
	out["map-loop-commuting-accepted"] = 0
	if ins > 0 && ins == insOK {
		out["map-loop-commuting-accepted"] = ins
	}
	return out
}

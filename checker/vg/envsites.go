package vg

import (
	"go/token"
	"go/types"
	"math"
	"strings"

	"golang.org/x/tools/go/ssa"
)

// envelope synthesis sites: every call of an encodeEnvelope implementation.

type envSite struct {
	fn      *ssa.Function
	call    ssa.CallInstruction
	env     ssa.Value
	request bool
}

func envelopeSites(p *Prog) []envSite {
	var out []envSite
	for _, fn := range p.Funcs {
		for _, call := range Calls(fn) {
			cc := call.Common()
			name := ""
			if cc.IsInvoke() {
				name = N(cc.Method)
			} else if sc := cc.StaticCallee(); sc != nil && sc.Signature.Recv() != nil {
				name = N(sc)
			}
			if name != "encodeEnvelope" {
				continue
			}
			// skip pure delegation inside another encodeEnvelope (parameter passed through)
			if N(fn) == "encodeEnvelope" {
				continue
			}
			env := cc.Args[len(cc.Args)-1]
			out = append(out, envSite{fn: fn, call: call, env: env, request: isRequestSide(p, fn)})
		}
	}
	return out
}

// isRequestSide: fn is a method of a type that implements io.Reader (the request
// body adapters); everything else synthesises response frames.
func isRequestSide(p *Prog, fn *ssa.Function) bool {
	recv := fn.Signature.Recv()
	if recv == nil {
		return false
	}
	return p.MethodOf(recv.Type(), "Read") != nil
}

// limitDerived: every origin of v is the configured message limit (the
// maxMsgBufferBytes field), possibly through conversions, or a constant not
// above MaxUint32; additive offsets are not allowed.
func limitDerived(p *Prog, v ssa.Value) bool {
	limFld := p.MustField("serviceOptions", "maxMsgBufferBytes")
	ls := Origins(v)
	if len(ls) == 0 {
		return false
	}
	for _, l := range ls {
		for _, op := range l.Ops {
			if op == token.ADD || op == token.MUL || op == token.SHL || op == token.OR {
				return false
			}
		}
		switch {
		case l.Kind == "load" && l.Field == limFld:
		case l.Kind == "const":
			k, ok := ConstInt(l.V)
			if !ok || k > math.MaxUint32 || k < 0 {
				return false
			}
		default:
			return false
		}
	}
	return true
}

// sameQuantity: two values denote the same number at their respective uses.
func sameQuantity(a, b ssa.Value) bool {
	sa, sb := strip(a), strip(b)
	if sa == sb {
		return true
	}
	ca, okA := sa.(*ssa.Call)
	cb, okB := sb.(*ssa.Call)
	if okA && okB && IsCallTo(ca, "(*bytes.Buffer).Len") && IsCallTo(cb, "(*bytes.Buffer).Len") {
		return strip(ca.Call.Args[0]) == strip(cb.Call.Args[0]) || PathOf(ca.Call.Args[0]) == PathOf(cb.Call.Args[0])
	}
	if LoadedField(sa) != nil && LoadedField(sa) == LoadedField(sb) && PathOf(sa) == PathOf(sb) {
		return true
	}
	fa, okFA := sa.(*ssa.Field)
	fb, okFB := sb.(*ssa.Field)
	if okFA && okFB && fa.Field == fb.Field && fa.X == fb.X {
		return true
	}
	return false
}

// bufferOfLen: if v is buf.Len() / len(buf.Bytes()) returns buf.
func bufferOfLen(v ssa.Value) ssa.Value {
	switch x := strip(v).(type) {
	case *ssa.Call:
		if IsCallTo(x, "(*bytes.Buffer).Len") {
			return x.Call.Args[0]
		}
		if CalleeName(x) == "builtin len" {
			if inner, ok := strip(x.Call.Args[0]).(*ssa.Call); ok && IsCallTo(inner, "(*bytes.Buffer).Bytes") {
				return inner.Call.Args[0]
			}
		}
	}
	return nil
}

func sameBuffer(a, b ssa.Value) bool {
	if a == nil || b == nil {
		return false
	}
	if strip(a) == strip(b) {
		return true
	}
	pa, pb := PathOf(a), PathOf(b)
	return pa == pb && !strings.HasPrefix(pa, "v:")
}

// checkEnvelopeSites emits length-pairing, narrowing and flag obligations for the
// request-side (requestSide=true) or response-side sites.
func checkEnvelopeSites(c *Ctx, ruleLen, ruleNarrow, ruleFlag string, requestSide bool) {
	p := c.P
	_, envT := envTypes(p)
	st := envT.Underlying().(*types.Struct)
	var lengthF, comprF *types.Var
	for i := 0; i < st.NumFields(); i++ {
		switch N(st.Field(i)) {
		case "length":
			lengthF = st.Field(i)
		case "compressed":
			comprF = st.Field(i)
		}
	}
	wasComprF := p.MustField("message", "wasCompressed")
	for _, s := range envelopeSites(p) {
		if s.request != requestSide {
			continue
		}
		c.CountSite()
		fn := s.fn
		// the possible values of env.length at the call
		var lenVals []ssa.Value
		if u, ok := s.env.(*ssa.UnOp); ok && u.Op == token.MUL {
			if al, ok := u.X.(*ssa.Alloc); ok && localAggregate(al) {
				lenVals = FieldValuesAt(al, lengthF, s.call)
			}
		}
		if lenVals == nil {
			lenVals = FieldValues(s.env, lengthF)
		}
		for _, lv := range lenVals {
			// ---- classify
			var buf ssa.Value
			var cellLoad ssa.Value
			var decoded ssa.CallInstruction
			inner := lv
			if cv, ok := lv.(*ssa.Convert); ok {
				inner = cv.X
			}
			if b := bufferOfLen(inner); b != nil {
				buf = b
			} else if ph, ok := strip(inner).(*ssa.Phi); ok {
				_ = ph
			}
			if buf == nil {
				for _, l := range Origins(inner) {
					switch {
					case l.Kind == "load" && l.Field != nil && len(l.Ops) == 0:
						cellLoad = l.V
					case l.Kind == "call" && (strings.HasSuffix(CalleeName(l.Call), ".decodeEnvelope") || strings.HasSuffix(CalleeName(l.Call), "decodeEnvelope")):
						decoded = l.Call
					case l.Kind == "call" && bufferOfLen(l.V) != nil:
						buf = bufferOfLen(l.V)
					}
				}
			}
			construct := "len"
			var okBound bool
			var what string
			switch {
			case buf != nil:
				construct = "length=len(buffer)"
				// buffer is written out or becomes the read source in this function
				for _, call := range Calls(fn) {
					if IsCallTo(call, "(*bytes.Buffer).WriteTo") && sameBuffer(call.Common().Args[0], buf) {
						okBound = true
					}
				}
				ForEachInstr(fn, func(in ssa.Instruction) {
					if stt, ok := in.(*ssa.Store); ok {
						if _, isFA := stt.Addr.(*ssa.FieldAddr); isFA && (sameBuffer(stt.Val, buf) || AddrPath(stt.Addr) == PathOf(buf)) {
							okBound = true
						}
					}
				})
				what = "the buffer whose Len() is announced is the one written out / installed as read source"
			case cellLoad != nil:
				f := LoadedField(cellLoad)
				construct = "length=" + N(f)
				// a bound with the same origin: int counter field store, or hardLimitReader.limit
				ForEachInstr(fn, func(in ssa.Instruction) {
					stt, ok := in.(*ssa.Store)
					if !ok {
						return
					}
					fa, ok := stt.Addr.(*ssa.FieldAddr)
					if !ok {
						return
					}
					tf := FieldOfAddr(fa)
					if !isIntegerLike(tf.Type()) {
						return
					}
					isBoundField := N(tf) == "limit" || strings.Contains(strings.ToLower(N(tf)), "remaining") || strings.Contains(strings.ToLower(N(tf)), "expecting")
					if !isBoundField {
						return
					}
					for _, l := range Origins(stt.Val) {
						if l.Kind == "load" && l.Field == f && len(l.Ops) == 0 {
							okBound = true
						}
					}
				})
				what = "the byte counter / limiting reader that bounds the payload is set from the same cell (" + N(f) + ")"
			case decoded != nil:
				construct = "length=decoded"
				fromDecoded := func(v ssa.Value) bool {
					for _, fv := range []ssa.Value{v} {
						for _, l := range Origins(fv) {
							if l.Kind == "call" && l.Call == decoded {
								return true
							}
						}
					}
					// Field(length) of the decoded struct held in a local aggregate
					if ld, ok := strip(v).(*ssa.UnOp); ok && ld.Op == token.MUL {
						if fa, ok := ld.X.(*ssa.FieldAddr); ok && FieldOfAddr(fa) == lengthF {
							if al, ok := fa.X.(*ssa.Alloc); ok {
								for _, w := range storesTo(al) {
									for _, l := range Origins(w) {
										if l.Kind == "call" && l.Call == decoded {
											return true
										}
									}
								}
							}
						}
					}
					if fv, ok := strip(v).(*ssa.Field); ok && FieldOfVal(fv) == lengthF {
						for _, l := range Origins(fv.X) {
							if l.Kind == "call" && l.Call == decoded {
								return true
							}
						}
					}
					return false
				}
				ForEachInstr(fn, func(in ssa.Instruction) {
					switch x := in.(type) {
					case *ssa.Store:
						if fa, ok := x.Addr.(*ssa.FieldAddr); ok && isIntegerLike(FieldOfAddr(fa).Type()) && fromDecoded(x.Val) {
							okBound = true
						}
					case ssa.CallInstruction:
						if IsCallTo(x, "io.LimitReader") && fromDecoded(x.Common().Args[1]) {
							okBound = true
						}
					}
				})
				what = "the payload bound (byte counter / LimitReader) is the decoded envelope's own length"
			default:
				c.Unknown(ruleLen, FuncName(fn), "length-origin", s.call.Pos(), "envelope length has an origin the rule does not recognise: "+lv.String())
				continue
			}
			c.Check(okBound, ruleLen, FuncName(fn), construct, s.call.Pos(), what,
				"the envelope announces "+construct+" but no payload bound / written buffer with the same origin exists in this function: length and bytes delivered can disagree")

			// ---- narrowing
			cv, isConv := lv.(*ssa.Convert)
			if !isConv {
				continue
			}
			tb, _ := cv.Type().Underlying().(*types.Basic)
			if tb == nil || tb.Kind() != types.Uint32 {
				continue
			}
			if sb, ok := cv.X.Type().Underlying().(*types.Basic); ok && (sb.Kind() == types.Uint32 || sb.Kind() == types.Uint16 || sb.Kind() == types.Uint8) {
				continue
			}
			checked := false
			var how string
			for _, f := range FactsAt(cv.Block()) {
				cmp, ok := f.AsCmp()
				if !ok {
					continue
				}
				x, y, op := cmp.X, cmp.Y, cmp.Op
				if sameQuantity(y, cv.X) {
					x, y, op = y, x, flip(op)
				}
				if !sameQuantity(x, cv.X) {
					continue
				}
				if (op == token.LEQ || op == token.LSS) && limitDerived(p, y) {
					checked = true
					how = "dominating comparison with a limit-derived bound"
				}
			}
			if !checked && buf != nil {
				// bounded by construction: the buffer was filled through a limiting reader with a limit-derived limit
				for _, call := range Calls(fn) {
					if !IsCallTo(call, "io.Copy", "io.CopyN", "(*bytes.Buffer).ReadFrom") {
						continue
					}
					dst := call.Common().Args[0]
					if !sameBuffer(dst, buf) {
						continue
					}
					src := call.Common().Args[1]
					if al, ok := strip(src).(*ssa.Alloc); ok && isNamed(al.Type(), RootPath, "hardLimitReader") {
						limF := p.MustField("hardLimitReader", "limit")
						vals := aggregateFieldStores(al, limF)
						all := len(vals) > 0
						for _, v := range vals {
							if !limitDerived(p, v) {
								all = false
							}
						}
						if all && instrBefore(call, cv) {
							checked = true
							how = "buffer filled through a hardLimitReader whose limit is limit-derived (no offset)"
						}
					}
				}
			}
			c.Check(checked, ruleNarrow, FuncName(fn), "uint32("+construct+")", cv.Pos(),
				"narrowing is justified: "+how,
				"uint32 narrowing of the envelope length is not dominated by a comparison of the same quantity with the configured limit (nor is the buffer filled through a limit-derived limiting reader): 'Length is validated above' does not hold")
		}

		// ---- compressed flag of re-encoded messages
		recv := fn.Signature.Recv()
		hasMsg := false
		if recv != nil {
			if pt, ok := recv.Type().(*types.Pointer); ok {
				if stt, ok := pt.Elem().Underlying().(*types.Struct); ok {
					for i := 0; i < stt.NumFields(); i++ {
						if N(stt.Field(i)) == "msg" && isPtrTo(stt.Field(i).Type(), RootPath, "message") {
							hasMsg = true
						}
					}
				}
			}
		}
		if !hasMsg {
			continue
		}
		var compVals []ssa.Value
		if u, ok := s.env.(*ssa.UnOp); ok && u.Op == token.MUL {
			if al, ok := u.X.(*ssa.Alloc); ok && localAggregate(al) {
				compVals = FieldValuesAt(al, comprF, s.call)
			}
		}
		good := len(compVals) > 0
		for _, v := range compVals {
			ph, ok := v.(*ssa.Phi)
			if !ok {
				good = false
				continue
			}
			for i, e := range ph.Edges {
				if b, isC := ConstBool(e); isC {
					if b {
						good = false
					}
					continue
				}
				bo, ok := e.(*ssa.BinOp)
				if !ok || bo.Op != token.NEQ || !IsNilConst(bo.Y) {
					good = false
					continue
				}
				side := "client"
				if requestSide {
					side = "server"
				}
				want := "respCompression"
				if requestSide {
					want = "reqCompression"
				}
				f := LoadedField(bo.X)
				if f == nil || N(f) != want || !PathOfHasSide(bo.X, side) {
					good = false
				}
				under := false
				for _, fct := range FactsOnEdge(ph.Block().Preds[i], ph.Block()) {
					if fct.Truth && LoadedField(fct.Cond) == wasComprF {
						under = true
					}
				}
				if !under {
					good = false
				}
			}
		}
		c.Check(good, ruleFlag, FuncName(fn), "compressed-flag", s.call.Pos(),
			"the flag is (message was compressed) && (outgoing compression configured): it is set exactly when the pipeline re-compresses the bytes",
			"the synthesized envelope's compressed flag is not the conjunction of the message's own was-compressed bit and the outgoing compression: a frame can be flagged compressed while its bytes are not (or vice versa)")
	}
}

// checkSynthFlagNonEmpty (defects D50, D51): where an adapter that only re-frames (it has no
// message to re-encode) synthesises an envelope for an un-enveloped body, 'compressed' can only
// mean 'the peer declared a compression'.  That is wrong for an empty body: zero bytes are not a
// valid stream of any compression.  So a flag derived from 'compression cell != nil' must be
// conjoined with 'length > 0' of the same envelope.
func checkSynthFlagNonEmpty(c *Ctx, rule string, requestSide bool) {
	p := c.P
	_, envT := envTypes(p)
	st := envT.Underlying().(*types.Struct)
	var lengthF, comprF *types.Var
	for i := 0; i < st.NumFields(); i++ {
		switch N(st.Field(i)) {
		case "length":
			lengthF = st.Field(i)
		case "compressed":
			comprF = st.Field(i)
		}
	}
	for _, s := range envelopeSites(p) {
		if s.request != requestSide {
			continue
		}
		u, ok := s.env.(*ssa.UnOp)
		if !ok || u.Op != token.MUL {
			continue
		}
		al, ok := u.X.(*ssa.Alloc)
		if !ok || !localAggregate(al) {
			continue
		}
		lenVals := FieldValuesAt(al, lengthF, s.call)
		isLen := func(v ssa.Value) bool {
			v = strip(v)
			if ld, ok := v.(*ssa.UnOp); ok && ld.Op == token.MUL {
				if fa, ok := ld.X.(*ssa.FieldAddr); ok && FieldOfAddr(fa) == lengthF && fa.X == ssa.Value(al) {
					return true
				}
			}
			for _, lv := range lenVals {
				inner := lv
				if cv, ok := lv.(*ssa.Convert); ok {
					inner = cv.X
				}
				if sameQuantity(v, inner) || strip(v) == strip(inner) || sameQuantity(v, lv) {
					return true
				}
				if a, b := bufferOfLen(v), bufferOfLen(inner); a != nil && b != nil && sameBuffer(a, b) {
					return true
				}
			}
			return false
		}
		isCellTest := func(v ssa.Value) bool {
			bo, ok := v.(*ssa.BinOp)
			return ok && bo.Op == token.NEQ && IsNilConst(bo.Y) && LoadedField(bo.X) != nil && strings.Contains(N(LoadedField(bo.X)), "ompression")
		}
		isWasCompressed := func(v ssa.Value) bool {
			f := LoadedField(v)
			return f != nil && N(f) == "wasCompressed"
		}
		isLenTest := func(v ssa.Value) bool {
			bo, ok := v.(*ssa.BinOp)
			if !ok {
				return false
			}
			if k, isK := ConstInt(bo.Y); isK && k == 0 && (bo.Op == token.GTR || bo.Op == token.NEQ) {
				return isLen(bo.X)
			}
			return false
		}
		ord := 0
		for _, cv := range FieldValuesAt(al, comprF, s.call) {
			// only flags that come from a compression cell (not from a decoded envelope)
			fromCell, conj := false, true
			var walk func(v ssa.Value, under []Fact, depth int)
			walk = func(v ssa.Value, under []Fact, depth int) {
				if depth > 4 {
					conj = false
					return
				}
				if b, isC := ConstBool(v); isC {
					if b {
						conj = false
					}
					return
				}
				if ph, ok := v.(*ssa.Phi); ok {
					for i, e := range ph.Edges {
						walk(e, FactsOnEdge(ph.Block().Preds[i], ph.Block()), depth+1)
					}
					return
				}
				has := func(pred func(ssa.Value) bool) bool {
					for _, f := range under {
						if f.Truth && pred(f.Cond) {
							return true
						}
					}
					return false
				}
				switch {
				case isCellTest(v):
					if has(isWasCompressed) {
						return // a re-encoded message: the flag says what was really done to its bytes (C02.7 / C03.6)
					}
					fromCell = true
					if !has(isLenTest) {
						conj = false
					}
				case isLenTest(v):
					if has(isCellTest) {
						fromCell = true
					} else {
						conj = false
					}
				default:
					// some other origin (decoded envelope, message state): not this rule's business
					conj = conj && true
				}
			}
			walk(cv, nil, 0)
			if !fromCell {
				continue
			}
			ord++
			construct := "synthesized-flag-needs-payload"
			if ord > 1 {
				construct += "|#" + itoa(ord)
			}
			c.CountSite()
			c.Check(conj, rule, FuncName(s.fn), construct, s.call.Pos(),
				"the synthesized envelope is flagged compressed only when a compression was declared AND the payload is not empty",
				"the envelope synthesized here is flagged compressed whenever the peer declared a compression, also for an empty body: zero payload bytes are not a valid compressed stream and the receiver fails to decompress them")
		}
	}
}

package vg

import (
	"go/token"
	"go/types"
	"math"
	"strings"

	"golang.org/x/tools/go/ssa"
)

// envelope synthesis sites: every call of an encodeEnvelope implementation.

type envSite struct {
	fn      *ssa.Function
	call    ssa.CallInstruction
	env     ssa.Value
	request bool
}

func envelopeSites(p *Prog) []envSite {
	var out []envSite
	for _, fn := range p.Funcs {
		for _, call := range Calls(fn) {
			cc := call.Common()
			name := ""
			if cc.IsInvoke() {
				name = N(cc.Method)
			} else if sc := cc.StaticCallee(); sc != nil && sc.Signature.Recv() != nil {
				name = N(sc)
			}
			if name != "encodeEnvelope" {
				continue
			}
			// skip pure delegation inside another encodeEnvelope (parameter passed through)
			if N(fn) == "encodeEnvelope" {
				continue
			}
			env := cc.Args[len(cc.Args)-1]
			out = append(out, envSite{fn: fn, call: call, env: env, request: isRequestSide(p, fn)})
		}
	}
	return out
}

// isRequestSide: fn is a method of a type that implements io.Reader (the request
// body adapters); everything else synthesises response frames.
func isRequestSide(p *Prog, fn *ssa.Function) bool {
	recv := fn.Signature.Recv()
	if recv == nil {
		return false
	}
	return p.MethodOf(recv.Type(), "Read") != nil
}

// limitDerived: every origin of v is the configured message limit (the
// maxMsgBufferBytes field), possibly through conversions, or a constant not
// above MaxUint32; additive offsets are not allowed.
func limitDerived(p *Prog, v ssa.Value) bool {
	limFld := p.MustField("serviceOptions", "maxMsgBufferBytes")
	ls := Origins(v)
	if len(ls) == 0 {
		return false
	}
	for _, l := range ls {
		for _, op := range l.Ops {
			if op == token.ADD || op == token.MUL || op == token.SHL || op == token.OR {
				return false
			}
		}
		switch {
		case l.Kind == "load" && l.Field == limFld:
		case l.Kind == "const":
			k, ok := ConstInt(l.V)
			if !ok || k > math.MaxUint32 || k < 0 {
				return false
			}
		default:
			return false
		}
	}
	return true
}

// sameQuantity: two values denote the same number at their respective uses.
func sameQuantity(a, b ssa.Value) bool {
	sa, sb := strip(a), strip(b)
	if sa == sb {
		return true
	}
	ca, okA := sa.(*ssa.Call)
	cb, okB := sb.(*ssa.Call)
	if okA && okB && IsCallTo(ca, "(*bytes.Buffer).Len") && IsCallTo(cb, "(*bytes.Buffer).Len") {
		return strip(ca.Call.Args[0]) == strip(cb.Call.Args[0]) || PathOf(ca.Call.Args[0]) == PathOf(cb.Call.Args[0])
	}
	if LoadedField(sa) != nil && LoadedField(sa) == LoadedField(sb) && PathOf(sa) == PathOf(sb) {
		return true
	}
	fa, okFA := sa.(*ssa.Field)
	fb, okFB := sb.(*ssa.Field)
	if okFA && okFB && fa.Field == fb.Field && fa.X == fb.X {
		return true
	}
	return false
}

// bufferOfLen: if v is buf.Len() / len(buf.Bytes()) returns buf.
func bufferOfLen(v ssa.Value) ssa.Value {
	switch x := strip(v).(type) {
	case *ssa.Call:
		if IsCallTo(x, "(*bytes.Buffer).Len") {
			return x.Call.Args[0]
		}
		if CalleeName(x) == "builtin len" {
			if inner, ok := strip(x.Call.Args[0]).(*ssa.Call); ok && IsCallTo(inner, "(*bytes.Buffer).Bytes") {
				return inner.Call.Args[0]
			}
		}
	}
	return nil
}

func sameBuffer(a, b ssa.Value) bool {
	if a == nil || b == nil {
		return false
	}
	if strip(a) == strip(b) {
		return true
	}
	pa, pb := PathOf(a), PathOf(b)
	return pa == pb && !strings.HasPrefix(pa, "v:")
}

// checkEnvelopeSites emits length-pairing, narrowing and flag obligations for the
// request-side (requestSide=true) or response-side sites.
func checkEnvelopeSites(c *Ctx, ruleLen, ruleNarrow, ruleFlag string, requestSide bool) {
	p := c.P
	_, envT := envTypes(p)
	st := envT.Underlying().(*types.Struct)
	var lengthF, comprF *types.Var
	for i := 0; i < st.NumFields(); i++ {
		switch N(st.Field(i)) {
		case "length":
			lengthF = st.Field(i)
		case "compressed":
			comprF = st.Field(i)
		}
	}
	wasComprF := p.MustField("message", "wasCompressed")
	for _, s := range envelopeSites(p) {
		if s.request != requestSide {
			continue
		}
		c.CountSite()
		fn := s.fn
		// the possible values of env.length at the call
		var lenVals []ssa.Value
		if u, ok := s.env.(*ssa.UnOp); ok && u.Op == token.MUL {
			if al, ok := u.X.(*ssa.Alloc); ok && localAggregate(al) {
				lenVals = FieldValuesAt(al, lengthF, s.call)
			}
		}
		if lenVals == nil {
			lenVals = FieldValues(s.env, lengthF)
		}
		for _, lv := range lenVals {
			// ---- classify
			var buf ssa.Value
			var cellLoad ssa.Value
			var decoded ssa.CallInstruction
			inner := lv
			if cv, ok := lv.(*ssa.Convert); ok {
				inner = cv.X
			}
			if b := bufferOfLen(inner); b != nil {
				buf = b
			} else if ph, ok := strip(inner).(*ssa.Phi); ok {
				_ = ph
			}
			if buf == nil {
				for _, l := range Origins(inner) {
					switch {
					case l.Kind == "load" && l.Field != nil && len(l.Ops) == 0:
						cellLoad = l.V
					case l.Kind == "call" && (strings.HasSuffix(CalleeName(l.Call), ".decodeEnvelope") || strings.HasSuffix(CalleeName(l.Call), "decodeEnvelope")):
						decoded = l.Call
					case l.Kind == "call" && bufferOfLen(l.V) != nil:
						buf = bufferOfLen(l.V)
					}
				}
			}
			construct := "len"
			var okBound bool
			var what string
			switch {
			case buf != nil:
				construct = "length=len(buffer)"
				// buffer is written out or becomes the read source in this function
				for _, call := range Calls(fn) {
					if IsCallTo(call, "(*bytes.Buffer).WriteTo") && sameBuffer(call.Common().Args[0], buf) {
						okBound = true
					}
				}
				ForEachInstr(fn, func(in ssa.Instruction) {
					if stt, ok := in.(*ssa.Store); ok {
						if _, isFA := stt.Addr.(*ssa.FieldAddr); isFA && (sameBuffer(stt.Val, buf) || AddrPath(stt.Addr) == PathOf(buf)) {
							okBound = true
						}
					}
				})
				what = "the buffer whose Len() is announced is the one written out / installed as read source"
			case cellLoad != nil:
				f := LoadedField(cellLoad)
				construct = "length=" + N(f)
				// a bound with the same origin: int counter field store, or hardLimitReader.limit
				ForEachInstr(fn, func(in ssa.Instruction) {
					stt, ok := in.(*ssa.Store)
					if !ok {
						return
					}
					fa, ok := stt.Addr.(*ssa.FieldAddr)
					if !ok {
						return
					}
					tf := FieldOfAddr(fa)
					if !isIntegerLike(tf.Type()) {
						return
					}
					isBoundField := N(tf) == "limit" || strings.Contains(strings.ToLower(N(tf)), "remaining") || strings.Contains(strings.ToLower(N(tf)), "expecting")
					if !isBoundField {
						return
					}
					for _, l := range Origins(stt.Val) {
						if l.Kind == "load" && l.Field == f && len(l.Ops) == 0 {
							okBound = true
						}
					}
				})
				what = "the byte counter / limiting reader that bounds the payload is set from the same cell (" + N(f) + ")"
			case decoded != nil:
				construct = "length=decoded"
				fromDecoded := func(v ssa.Value) bool {
					for _, fv := range []ssa.Value{v} {
						for _, l := range Origins(fv) {
							if l.Kind == "call" && l.Call == decoded {
								return true
							}
						}
					}
					// Field(length) of the decoded struct held in a local aggregate
					if ld, ok := strip(v).(*ssa.UnOp); ok && ld.Op == token.MUL {
						if fa, ok := ld.X.(*ssa.FieldAddr); ok && FieldOfAddr(fa) == lengthF {
							if al, ok := fa.X.(*ssa.Alloc); ok {
								for _, w := range storesTo(al) {
									for _, l := range Origins(w) {
										if l.Kind == "call" && l.Call == decoded {
											return true
										}
									}
								}
							}
						}
					}
					if fv, ok := strip(v).(*ssa.Field); ok && FieldOfVal(fv) == lengthF {
						for _, l := range Origins(fv.X) {
							if l.Kind == "call" && l.Call == decoded {
								return true
							}
						}
					}
					return false
				}
				ForEachInstr(fn, func(in ssa.Instruction) {
					switch x := in.(type) {
					case *ssa.Store:
						if fa, ok := x.Addr.(*ssa.FieldAddr); ok && isIntegerLike(FieldOfAddr(fa).Type()) && fromDecoded(x.Val) {
							okBound = true
						}
					case ssa.CallInstruction:
						if IsCallTo(x, "io.LimitReader") && fromDecoded(x.Common().Args[1]) {
							okBound = true
						}
					}
				})
				what = "the payload bound (byte counter / LimitReader) is the decoded envelope's own length"
			default:
				c.Unknown(ruleLen, FuncName(fn), "length-origin", s.call.Pos(), "envelope length has an origin the rule does not recognise: "+lv.String())
				continue
			}
			c.Check(okBound, ruleLen, FuncName(fn), construct, s.call.Pos(), what,
				"the envelope announces "+construct+" but no payload bound / written buffer with the same origin exists in this function: length and bytes delivered can disagree")

			// ---- narrowing
			cv, isConv := lv.(*ssa.Convert)
			if !isConv {
				continue
			}
			tb, _ := cv.Type().Underlying().(*types.Basic)
			if tb == nil || tb.Kind() != types.Uint32 {
				continue
			}
			if sb, ok := cv.X.Type().Underlying().(*types.Basic); ok && (sb.Kind() == types.Uint32 || sb.Kind() == types.Uint16 || sb.Kind() == types.Uint8) {
				continue
			}
			checked := false
			var how string
			for _, f := range FactsAt(cv.Block()) {
				cmp, ok := f.AsCmp()
				if !ok {
					continue
				}
				x, y, op := cmp.X, cmp.Y, cmp.Op
				if sameQuantity(y, cv.X) {
					x, y, op = y, x, flip(op)
				}
				if !sameQuantity(x, cv.X) {
					continue
				}
				if (op == token.LEQ || op == token.LSS) && limitDerived(p, y) {
					checked = true
					how = "dominating comparison with a limit-derived bound"
				}
			}
			if !checked && buf != nil {
				// bounded by construction: the buffer was filled through a limiting reader with a limit-derived limit
				for _, call := range Calls(fn) {
					if !IsCallTo(call, "io.Copy", "io.CopyN", "(*bytes.Buffer).ReadFrom") {
						continue
					}
					dst := call.Common().Args[0]
					if !sameBuffer(dst, buf) {
						continue
					}
					src := call.Common().Args[1]
					if al, ok := strip(src).(*ssa.Alloc); ok && isNamed(al.Type(), RootPath, "hardLimitReader") {
						limF := p.MustField("hardLimitReader", "limit")
						vals := aggregateFieldStores(al, limF)
						all := len(vals) > 0
						for _, v := range vals {
							if !limitDerived(p, v) {
								all = false
							}
						}
						if all && instrBefore(call, cv) {
							checked = true
							how = "buffer filled through a hardLimitReader whose limit is limit-derived (no offset)"
						}
					}
				}
			}
			c.Check(checked, ruleNarrow, FuncName(fn), "uint32("+construct+")", cv.Pos(),
				"narrowing is justified: "+how,
				"uint32 narrowing of the envelope length is not dominated by a comparison of the same quantity with the configured limit (nor is the buffer filled through a limit-derived limiting reader): 'Length is validated above' does not hold")
		}

		// ---- compressed flag of re-encoded messages
		recv := fn.Signature.Recv()
		hasMsg := false
		if recv != nil {
			if pt, ok := recv.Type().(*types.Pointer); ok {
				if stt, ok := pt.Elem().Underlying().(*types.Struct); ok {
					for i := 0; i < stt.NumFields(); i++ {
						if N(stt.Field(i)) == "msg" && isPtrTo(stt.Field(i).Type(), RootPath, "message") {
							hasMsg = true
						}
					}
				}
			}
		}
		if !hasMsg {
			continue
		}
		var compVals []ssa.Value
		if u, ok := s.env.(*ssa.UnOp); ok && u.Op == token.MUL {
			if al, ok := u.X.(*ssa.Alloc); ok && localAggregate(al) {
				compVals = FieldValuesAt(al, comprF, s.call)
			}
		}
		good := len(compVals) > 0
		for _, v := range compVals {
			ph, ok := v.(*ssa.Phi)
			if !ok {
				good = false
				continue
			}
			for i, e := range ph.Edges {
				if b, isC := ConstBool(e); isC {
					if b {
						good = false
					}
					continue
				}
				bo, ok := e.(*ssa.BinOp)
				if !ok || bo.Op != token.NEQ || !IsNilConst(bo.Y) {
					good = false
					continue
				}
				side := "client"
				if requestSide {
					side = "server"
				}
				want := "respCompression"
				if requestSide {
					want = "reqCompression"
				}
				f := LoadedField(bo.X)
				if f == nil || N(f) != want || !PathOfHasSide(bo.X, side) {
					good = false
				}
				under := false
				for _, fct := range FactsOnEdge(ph.Block().Preds[i], ph.Block()) {
					if fct.Truth && LoadedField(fct.Cond) == wasComprF {
						under = true
					}
				}
				if !under {
					good = false
				}
			}
		}
		c.Check(good, ruleFlag, FuncName(fn), "compressed-flag", s.call.Pos(),
			"the flag is (message was compressed) && (outgoing compression configured): it is set exactly when the pipeline re-compresses the bytes",
			"the synthesized envelope's compressed flag is not the conjunction of the message's own was-compressed bit and the outgoing compression: a frame can be flagged compressed while its bytes are not (or vice versa)")
	}
}

// checkSynthFlagNonEmpty (defects D50, D51): where an adapter that only re-frames (it has no
// message to re-encode) synthesises an envelope for an un-enveloped body, 'compressed' can only
// mean 'the peer declared a compression'.  That is wrong for an empty body: zero bytes are not a
// valid stream of any compression.  So a flag derived from 'compression cell != nil' must be
// conjoined with 'length > 0' of the same envelope.
func checkSynthFlagNonEmpty(c *Ctx, rule string, requestSide bool) {
	p := c.P
	_, envT := envTypes(p)
	st := envT.Underlying().(*types.Struct)
	var lengthF, comprF *types.Var
	for i := 0; i < st.NumFields(); i++ {
		switch N(st.Field(i)) {
		case "length":
			lengthF = st.Field(i)
		case "compressed":
			comprF = st.Field(i)
		}
	}
	for _, s := range envelopeSites(p) {
		if s.request != requestSide {
			continue
		}
		u, ok := s.env.(*ssa.UnOp)
		if !ok || u.Op != token.MUL {
			continue
		}
		al, ok := u.X.(*ssa.Alloc)
		if !ok || !localAggregate(al) {
			continue
		}
		lenVals := FieldValuesAt(al, lengthF, s.call)
		isLen := func(v ssa.Value) bool {
			v = strip(v)
			if ld, ok := v.(*ssa.UnOp); ok && ld.Op == token.MUL {
				if fa, ok := ld.X.(*ssa.FieldAddr); ok && FieldOfAddr(fa) == lengthF && fa.X == ssa.Value(al) {
					return true
				}
			}
			for _, lv := range lenVals {
				inner := lv
				if cv, ok := lv.(*ssa.Convert); ok {
					inner = cv.X
				}
				if sameQuantity(v, inner) || strip(v) == strip(inner) || sameQuantity(v, lv) {
					return true
				}
				if a, b := bufferOfLen(v), bufferOfLen(inner); a != nil && b != nil && sameBuffer(a, b) {
					return true
				}
			}
			return false
		}
		isCellTest := func(v ssa.Value) bool {
			bo, ok := v.(*ssa.BinOp)
			return ok && bo.Op == token.NEQ && IsNilConst(bo.Y) && LoadedField(bo.X) != nil && strings.Contains(N(LoadedField(bo.X)), "ompression")
		}
		isWasCompressed := func(v ssa.Value) bool {
			f := LoadedField(v)
			return f != nil && N(f) == "wasCompressed"
		}
		isLenTest := func(v ssa.Value) bool {
			bo, ok := v.(*ssa.BinOp)
			if !ok {
				return false
			}
			if k, isK := ConstInt(bo.Y); isK && k == 0 && (bo.Op == token.GTR || bo.Op == token.NEQ) {
				return isLen(bo.X)
			}
			return false
		}
		ord := 0
		for _, cv := range FieldValuesAt(al, comprF, s.call) {
			// only flags that come from a compression cell (not from a decoded envelope)
			fromCell, conj := false, true
			var walk func(v ssa.Value, under []Fact, depth int)
			walk = func(v ssa.Value, under []Fact, depth int) {
				if depth > 4 {
					conj = false
					return
				}
				if b, isC := ConstBool(v); isC {
					if b {
						conj = false
					}
					return
				}
				if ph, ok := v.(*ssa.Phi); ok {
					for i, e := range ph.Edges {
						walk(e, FactsOnEdge(ph.Block().Preds[i], ph.Block()), depth+1)
					}
					return
				}
				has := func(pred func(ssa.Value) bool) bool {
					for _, f := range under {
						if f.Truth && pred(f.Cond) {
							return true
						}
					}
					return false
				}
				switch {
				case isCellTest(v):
					if has(isWasCompressed) {
						return // a re-encoded message: the flag says what was really done to its bytes (C02.7 / C03.6)
					}
					fromCell = true
					if !has(isLenTest) {
						conj = false
					}
				case isLenTest(v):
					if has(isCellTest) {
						fromCell = true
					} else {
						conj = false
					}
				default:
					// some other origin (decoded envelope, message state): not this rule's business
					conj = conj && true
				}
			}
			walk(cv, nil, 0)
			if !fromCell {
				continue
			}
			ord++
			construct := "synthesized-flag-needs-payload"
			if ord > 1 {
				construct += "|#" + itoa(ord)
			}
			c.CountSite()
			c.Check(conj, rule, FuncName(s.fn), construct, s.call.Pos(),
				"the synthesized envelope is flagged compressed only when a compression was declared AND the payload is not empty",
				"the envelope synthesized here is flagged compressed whenever the peer declared a compression, also for an empty body: zero payload bytes are not a valid compressed stream and the receiver fails to decompress them")
		}
	}
}

// checkUnenvelopedCompression (defect D70).  A peer with envelopes may leave any single message
// uncompressed (flag 0) under a declared compression; a peer without envelopes cannot be told -
// its Content-Encoding covers the whole body.  Two structural necessary conditions besides the
// pipeline's decision table (C01.4 compress-when-peer-cannot-be-told):
//   - flag-built-from-destination: the message's compress-always flag is built, where the
//     message is constructed, from 'the destination has no enveloper' and 'the destination
//     declares a compression' (both nil tests occur among the conditions the stored value
//     depends on); a constant, or a flag built from the SOURCE side, is a violation;
//   - reframe-only-excluded: the adapter that merely rewrites envelopes (it never sees a message
//     as a unit, so it cannot compress one) is selected only under a condition that depends on
//     that flag or on the destination's enveloper.
func checkUnenvelopedCompression(c *Ctx, rule string, requestSide bool) {
	p := c.P
	alwaysF := p.Field("message", "compressAlways")
	var site *ssa.Function
	destEnv, srcEnv, adapter := "clientEnveloper", "serverEnveloper", "envelopingWriter"
	comprName := "respCompression"
	if requestSide {
		site = p.MustFunc("(*operation).handle")
		destEnv, srcEnv, adapter = "serverEnveloper", "clientEnveloper", "envelopingReader"
		comprName = "reqCompression"
	}
	_ = srcEnv
	adapterT := p.MustNamed(adapter)
	if alwaysF == nil {
		c.Bad(rule, "message", "unenveloped-peer-gets-compressed-messages", token.NoPos,
			"the message pipeline has no notion of 'the outgoing leg cannot mark a message as uncompressed': a message that an enveloped peer sent with its compressed flag unset reaches a peer without envelopes (Connect unary, REST) uncompressed under a Content-Encoding that declares a compression")
		return
	}
	destEnvF := p.MustField("operation", destEnv)
	// conditions a boolean value depends on: through phis (with the branch conditions that select
	// their edges), negations and boolean operators
	var deps func(v ssa.Value, seen map[ssa.Value]bool, out *[]ssa.Value)
	deps = func(v ssa.Value, seen map[ssa.Value]bool, out *[]ssa.Value) {
		if v == nil || seen[v] || len(seen) > 200 {
			return
		}
		seen[v] = true
		*out = append(*out, v)
		switch x := v.(type) {
		case *ssa.Phi:
			for i, e := range x.Edges {
				deps(e, seen, out)
				pred := x.Block().Preds[i]
				if iff, ok := pred.Instrs[len(pred.Instrs)-1].(*ssa.If); ok {
					deps(iff.Cond, seen, out)
				}
				// the edge may come through an empty forwarding block
				for _, pp := range pred.Preds {
					if len(pred.Instrs) == 1 {
						if iff, ok := pp.Instrs[len(pp.Instrs)-1].(*ssa.If); ok {
							deps(iff.Cond, seen, out)
						}
					}
				}
			}
		case *ssa.UnOp:
			if x.Op == token.NOT {
				deps(x.X, seen, out)
			}
		case *ssa.BinOp:
			if bt, ok := x.Type().Underlying().(*types.Basic); ok && bt.Info()&types.IsBoolean != 0 && (x.Op == token.AND || x.Op == token.OR || x.Op == token.EQL || x.Op == token.NEQ) {
				if _, isBoolX := x.X.Type().Underlying().(*types.Basic); isBoolX {
					deps(x.X, seen, out)
					deps(x.Y, seen, out)
				}
			}
		}
	}
	nilTestOf := func(v ssa.Value, match func(f *types.Var) bool) bool {
		bo, ok := v.(*ssa.BinOp)
		if !ok || (bo.Op != token.EQL && bo.Op != token.NEQ) {
			return false
		}
		x, y := bo.X, bo.Y
		if IsNilConst(x) {
			x, y = y, x
		}
		if !IsNilConst(y) {
			return false
		}
		f := LoadedField(x)
		return f != nil && match(f)
	}
	nBuilt, nSel := 0, 0
	for _, fn := range p.Funcs {
		if !p.inScope(fn) || (site != nil && fn != site) {
			continue
		}
		// does this function construct the adapter of this direction?
		var adapterAllocs []*ssa.Alloc
		ForEachInstr(fn, func(in ssa.Instruction) {
			al, ok := in.(*ssa.Alloc)
			if !ok {
				return
			}
			if pt, isP := al.Type().(*types.Pointer); isP && types.Identical(pt.Elem(), adapterT) {
				adapterAllocs = append(adapterAllocs, al)
			}
		})
		if len(adapterAllocs) == 0 {
			continue
		}
		var flagStores []*ssa.Store
		for _, st := range StoresToField(fn, alwaysF) {
			flagStores = append(flagStores, st)
		}
		for _, st := range flagStores {
			nBuilt++
			var ds []ssa.Value
			deps(st.Val, map[ssa.Value]bool{}, &ds)
			envOK, comprOK := false, false
			for _, d := range ds {
				if nilTestOf(d, func(f *types.Var) bool { return f == destEnvF }) {
					envOK = true
				}
				if nilTestOf(d, func(f *types.Var) bool { return N(f) == comprName }) {
					comprOK = true
				}
			}
			c.Check(envOK && comprOK, rule, FuncName(fn), "flag-built-from-destination", st.Pos(),
				"the compress-always flag is built from 'the destination has no enveloper' and 'the destination declares a compression'",
				"the message's compress-always flag is not built from the destination's framing ("+destEnv+" == nil) and the destination's declared compression ("+comprName+" != nil): messages that arrive uncompressed are sent to a peer without envelopes as they are, under a Content-Encoding that says compressed (or every message is compressed for peers that were promised nothing)")
		}
		for _, al := range adapterAllocs {
			nSel++
			ok := false
			// the conditions the selection hangs on: the facts that dominate the construction, and
			// the tests of its nearest dominators (a disjunction `!(flag && x)` reaches the block over
			// two edges, neither of which dominates it)
			var conds []ssa.Value
			for _, f := range FactsAt(al.Block()) {
				conds = append(conds, f.Cond)
			}
			for d, k := al.Block().Idom(), 0; d != nil && k < 4; d, k = d.Idom(), k+1 {
				if iff, isIf := d.Instrs[len(d.Instrs)-1].(*ssa.If); isIf {
					conds = append(conds, iff.Cond)
				}
			}
			for _, cond := range conds {
				var ds []ssa.Value
				deps(cond, map[ssa.Value]bool{}, &ds)
				for _, d := range ds {
					if LoadedField(d) == alwaysF || nilTestOf(d, func(fv *types.Var) bool { return fv == destEnvF }) {
						ok = true
					}
					// the flag's value itself (the same expression that was stored into the field)
					for _, st := range flagStores {
						if d == st.Val {
							ok = true
						}
					}
				}
			}
			c.Check(ok, rule, FuncName(fn), "reframe-only-excluded", al.Pos(),
				"the envelope-rewriting adapter is selected under a condition that takes the compress-always flag (or the destination's framing) into account",
				"the adapter that only rewrites envelopes is selected without regard to whether the outgoing leg can mark a message as uncompressed: it never sees a message as a unit, so a flag-0 message of an enveloped peer reaches a peer without envelopes uncompressed under a Content-Encoding that declares a compression")
		}
	}
	if nBuilt == 0 || nSel == 0 {
		c.Bad(rule, "package", "unenveloped-peer-gets-compressed-messages", token.NoPos, "the construction of the message with its compress-always flag ("+itoa(nBuilt)+") or the selection of the "+adapter+" ("+itoa(nSel)+") was not found where the adapters are chosen: shape changed")
	}
}

// checkLengthMeasuredAfterLastEdit (seed C03l): the length announced by a synthesised envelope is
// a measurement of the buffer that is written after it.  Between the measurement that flows into
// the envelope and the envelope's encoding the buffer is not edited again (Reset / Write*): an
// envelope built before a fallback replaces the payload announces the discarded payload's size.
// For every envelope site whose length derives from (*bytes.Buffer).Len: there is no edit of the
// same buffer that is reachable from the measurement and reaches the encoding without passing
// another measurement of that buffer.
func checkLengthMeasuredAfterLastEdit(c *Ctx, rule string, requestSide bool) {
	p := c.P
	_, envT := envTypes(p)
	st := envT.Underlying().(*types.Struct)
	var lengthF *types.Var
	for i := 0; i < st.NumFields(); i++ {
		if N(st.Field(i)) == "length" {
			lengthF = st.Field(i)
		}
	}
	for _, s := range envelopeSites(p) {
		if s.request != requestSide {
			continue
		}
		u, ok := s.env.(*ssa.UnOp)
		if !ok || u.Op != token.MUL {
			continue
		}
		al, ok := u.X.(*ssa.Alloc)
		if !ok || !localAggregate(al) {
			continue
		}
		// the measurements that may flow into the length
		var lens []*ssa.Call
		var walk func(v ssa.Value, depth int)
		seen := map[ssa.Value]bool{}
		walk = func(v ssa.Value, depth int) {
			if depth > 6 || seen[v] {
				return
			}
			seen[v] = true
			v = strip(v)
			switch x := v.(type) {
			case *ssa.Phi:
				for _, e := range x.Edges {
					walk(e, depth+1)
				}
			case *ssa.Convert:
				walk(x.X, depth+1)
			case *ssa.Call:
				if IsCallTo(x, "(*bytes.Buffer).Len") {
					lens = append(lens, x)
				}
			}
		}
		for _, lv := range FieldValuesAt(al, lengthF, s.call) {
			walk(lv, 0)
		}
		if len(lens) == 0 {
			continue
		}
		fn := s.fn
		for _, lc := range lens {
			buf := lc.Call.Args[0]
			isLenOfBuf := func(in ssa.Instruction) bool {
				cv, ok := in.(*ssa.Call)
				return ok && cv != lc && IsCallTo(cv, "(*bytes.Buffer).Len") && sameBuffer(cv.Call.Args[0], buf)
			}
			isEdit := func(in ssa.Instruction) bool {
				ci, ok := in.(ssa.CallInstruction)
				if !ok || !IsCallTo(ci, "(*bytes.Buffer).Reset", "(*bytes.Buffer).Write", "(*bytes.Buffer).WriteString", "(*bytes.Buffer).WriteByte", "(*bytes.Buffer).WriteRune", "(*bytes.Buffer).ReadFrom", "(*bytes.Buffer).Truncate") {
					return false
				}
				return sameBuffer(ci.Common().Args[0], buf)
			}
			bad := ""
			ForEachInstr(fn, func(in ssa.Instruction) {
				if !isEdit(in) || bad != "" {
					return
				}
				reached, _ := PathQuery{Target: func(x ssa.Instruction) bool { return x == in }, Avoid: isLenOfBuf}.Search(fn, lc)
				if !reached {
					return
				}
				toEnc, _ := PathQuery{Target: func(x ssa.Instruction) bool { return x == ssa.Instruction(s.call) }, Avoid: isLenOfBuf}.Search(fn, in)
				if toEnc {
					bad = p.Pos(in.Pos())
				}
			})
			c.Check(bad == "", rule, FuncName(fn), "length-measured-after-last-edit", lc.Pos(),
				"the buffer is not edited between this measurement and the envelope that announces it",
				"the buffer is edited ("+bad+") after the length that the envelope announces was measured, and no new measurement follows: the envelope announces the size of a payload that was replaced, so the frame (here: the stream's terminal frame) is malformed and the peer never sees a complete end")
		}
	}
}

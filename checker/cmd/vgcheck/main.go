package main

import (
	"os"

	"vgcheck/vg"
)

func main() { os.Exit(vg.Main()) }

// Package ctl is a positive control for the checker: it contains one instance
// of every construct whose expected count in vanguard-go is zero, so that the
// matchers behind those rules are shown to be able to match on every thorough
// run.  It is never linked into anything.
package ctl

import (
	"net/http"
	"time"
)

var counter int

// Everything exercises the zero-expected constructs.
func Everything(h http.Handler, w http.ResponseWriter, r *http.Request, v any) {
	go func() { counter++ }()
	s := v.(string) // single-value type assertion
	if s == "" {
		panic("empty")
	}
	time.AfterFunc(time.Second, func() {})
	counter = len(s)
	h.ServeHTTP(w, r)
}

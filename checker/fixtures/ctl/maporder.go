package ctl

import (
	"net/http"
	"sort"
	"strings"
)

// Positive and negative controls for the map-iteration-order analysis (C15.5).
// Every OrderSensitive* function contains a loop whose result depends on Go's
// randomised map order and must be reported; every OrderInsensitive* function
// contains a loop whose iterations commute and must be accepted.

func OrderSensitiveJoin(m map[string]struct{}) string {
	var sb strings.Builder
	for k := range m {
		sb.WriteString(k)
	}
	return sb.String()
}

func OrderSensitiveAddUnderConstantKey(m map[string]struct{}, h http.Header) {
	for k := range m {
		h.Add("Trailer", k)
	}
}

func OrderSensitiveFirstError(m map[string][]string) string {
	for k, v := range m {
		if len(v) == 0 {
			return k
		}
	}
	return ""
}

func OrderSensitiveCollidingKeys(src, dst http.Header) {
	for k, v := range src {
		if !strings.HasPrefix(k, "Trailer:") {
			k = "Trailer:" + k
		}
		dst[k] = v
	}
}

func OrderSensitiveCollectUnsorted(m map[string]int) []string {
	var out []string
	for k := range m {
		out = append(out, k)
	}
	return out
}

func OrderSensitiveLastWins(m map[string]int) int {
	last := 0
	for _, v := range m {
		last = v
	}
	return last
}

func OrderInsensitiveCopy(src, dst http.Header) {
	for k, v := range src {
		dst["Trailer-"+k] = v
	}
}

func OrderInsensitiveSet(src http.Header, set map[string]struct{}) {
	for k := range src {
		set[strings.ToLower(k)] = struct{}{}
	}
}

func OrderInsensitiveCount(src http.Header) int {
	n := 0
	for k, v := range src {
		if strings.HasPrefix(k, "X-") {
			n += len(v)
		}
	}
	return n
}

func OrderInsensitiveExists(src http.Header) bool {
	for k := range src {
		if strings.HasPrefix(k, "X-") {
			return true
		}
	}
	return false
}

func OrderInsensitiveCollectSorted(m map[string]int) []string {
	var out []string
	for k := range m {
		out = append(out, k)
	}
	sort.Strings(out)
	return out
}

func OrderInsensitiveMove(src http.Header) http.Header {
	var out http.Header
	for k, v := range src {
		name, ok := strings.CutPrefix(k, "Trailer:")
		if !ok {
			continue
		}
		if out == nil {
			out = make(http.Header)
		}
		out[name] = append(out[name], v...)
		delete(src, k)
	}
	return out
}

#!/bin/sh
# Wrapper used by every MANIFEST command.
#   ./run.sh CNN quick|thorough     run the static checks of one property against /repo
#   ./run.sh --replay <file>        re-evaluate one recorded obligation on the current tree
#   ./run.sh --build                (re)build the checker only
# The checker binary is rebuilt when its sources changed; analysis results are never
# cached: /repo's working tree is loaded, type-checked and lowered to SSA on every run.
set -eu
HERE=$(cd "$(dirname "$0")" && pwd)
cd "$HERE"
export PATH=/opt/veriftools/go1.26.8/bin:$PATH
export GOTOOLCHAIN=local GOFLAGS=-mod=mod GOPROXY=off GOSUMDB=off GOWORK=off CGO_ENABLED=0
REPO=${VERIF_REPO:-/repo}
BIN="$HERE/bin/vgcheck"

build() {
	mkdir -p "$HERE/bin"
	(
		flock 9
		if [ ! -x "$BIN" ] || [ -n "$(find "$HERE/checker" -newer "$BIN" \( -name '*.go' -o -name 'go.mod' -o -name 'go.sum' \) -print -quit)" ]; then
			(cd "$HERE/checker" && go build -o "$BIN.tmp.$$" ./cmd/vgcheck && mv "$BIN.tmp.$$" "$BIN")
		fi
	) 9>"$HERE/bin/.build.lock"
}

case "${1:-}" in
--build)
	build
	exit 0
	;;
--replay)
	build
	exec "$BIN" -repo "$REPO" -known "$HERE/known_findings.json" -replay "$2"
	;;
"")
	echo "usage: $0 CNN quick|thorough | --replay file | --build" >&2
	exit 2
	;;
esac
PROP=$1
TIER=${2:-${VERIF_TIER:-quick}}
build
mkdir -p "$HERE/evidence" "$HERE/findings"
exec "$BIN" -repo "$REPO" -property "$PROP" -tier "$TIER" \
	-evidence "$HERE/evidence/$PROP.json" -known "$HERE/known_findings.json" -findings "$HERE/findings"
